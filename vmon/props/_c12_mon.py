"""
Monitors of the C12 check: recording post-monitors on the real verde callables and the
offline judges that decide the property over the recorded events.

Threading rule: post-monitors that may run inside dask worker threads (``fit``, ``score``,
``score_estimator``) only *record* (under a lock); every decision (``run.evaluated`` /
``run.violation``) is taken under the global judge lock, by the thread that owns the call being
judged (the main thread, or a dask.distributed worker for the deprecated ``client=`` path).
"""
import contextlib
import itertools
import threading
import warnings

import numpy as np

from . import _c12_ref as R

GL = threading.RLock()  # judge lock


class Rec:
    """One recorded event."""

    __slots__ = ("kind", "obj", "thread", "n", "coordinates", "data", "weights", "result", "exc", "scoring",
                 "local_expected", "local_scale", "local_skip", "judged", "state_changed", "top")

    def __init__(self, kind, obj, thread):
        self.kind, self.obj, self.thread = kind, obj, thread
        self.n = -1
        self.coordinates = self.data = self.weights = None
        self.result = self.exc = self.scoring = None
        self.local_expected = self.local_scale = self.local_skip = None
        self.judged = False
        self.state_changed = None
        self.top = True


class State:
    def __init__(self):
        self.run = None
        self.lock = threading.Lock()
        self.events = []
        self.local = threading.local()
        self.datasets = []
        self.tickets = []
        self.ref_cache = {}
        self.main = threading.main_thread().ident
        self.last_splinecv = None

    # -- recording ---------------------------------------------------------
    def add(self, rec):
        with self.lock:
            rec.n = len(self.events)
            self.events.append(rec)

    def mark(self):
        with self.lock:
            return len(self.events)

    def since(self, start, thread=None):
        with self.lock:
            out = self.events[start:]
        if thread is not None:
            out = [e for e in out if e.thread == thread]
        return out

    def muted(self):
        return getattr(self.local, "mute", 0) > 0

    @contextlib.contextmanager
    def mute(self):
        """Harness-side use of verde (reference fits made outside a monitor) is not an observed execution."""
        self.local.mute = getattr(self.local, "mute", 0) + 1
        try:
            yield
        finally:
            self.local.mute -= 1

    # -- per case ----------------------------------------------------------
    def begin_case(self):
        with self.lock:
            self.events = []
        self.datasets = []
        self.tickets = []
        self.ref_cache = {}
        R.forget_recordings()

    def register(self, dataset):
        self.datasets.append(dataset)
        return dataset

    def identify(self, coordinates):
        """(dataset, rows) for the coordinates, or (None, None)."""
        for ds in self.datasets:
            rows = ds.rows(coordinates)
            if rows is not None:
                return ds, rows
        return None, None


S = State()


# --------------------------------------------------------------------------
# reference scores
# --------------------------------------------------------------------------
class RefModel:
    """
    What the statement prescribes for one cross_val_score configuration: for split k the metric
    (numpy) of a fresh estimator fitted by the harness on the training rows, evaluated on the test
    rows with the test weights, mean over components.
    Tolerance: 1e-9 relative (of max(1, 1-R2) for R2, of |value| otherwise) or 100 x the change
    of the reference score when the training rows are presented in another order (a pure round-off
    perturbation; this is the conditioning of the fit expressed in score units), whichever is larger.
    """

    def __init__(self, dataset, make_estimator, est_key, scoring):
        self.ds = dataset
        self.make = make_estimator
        self.key = est_key
        self.name = R.scoring_name(scoring)

    def score(self, train, test):
        """-> dict(value, tol, scale, skip)"""
        key = (id(self.ds), self.key, self.name, train.tobytes(), test.tobytes())
        hit = S.ref_cache.get(key)
        if hit is not None:
            return hit
        out = {"value": None, "tol": None, "scale": 1.0, "skip": None}
        if self.name is None:
            out["skip"] = "scoring not modelled by the harness"
        else:
            test_c, test_d, test_w = self.ds.take(test)
            vals = []
            perm_rng = np.random.default_rng(train.size * 7919 + test.size)
            for trial in range(3):
                rows = train if trial == 0 else perm_rng.permutation(train)
                c, d, w = self.ds.take(rows)
                with S.mute(), warnings.catch_warnings():
                    warnings.simplefilter("ignore")
                    est = self.make()
                    est.fit(c, d if len(d) > 1 else d[0], None if w is None else (w if len(w) > 1 else w[0]))
                    pred = est.predict(test_c)
                val, scale = R.mean_metric(self.name, test_d, pred if isinstance(pred, tuple) else (pred,),
                                           test_w if test_w is not None else (None,) * len(test_d))
                if val is None:
                    out["skip"] = scale
                    break
                vals.append(val)
                if trial == 0:
                    out["value"], out["scale"] = val, scale
            if out["skip"] is None:
                sens = max(abs(v - vals[0]) for v in vals[1:])
                out["tol"] = max(1e-9 * out["scale"], 100.0 * sens)
                out["sensitivity"] = sens
                if out["tol"] > 1e-3 * out["scale"]:
                    out["skip"] = "ill-conditioned fit: the score moves by %.3g when the training rows are reordered" % sens
        S.ref_cache[key] = out
        return out


def canonical(template):
    """
    The reference estimator spells damping / mindist as Python floats: damping=1, np.int64(1), np.float32(1) and 1.0 are
    the same model, so whatever spelling the caller used the expected numbers are those of the float spelling.
    """
    import numbers

    for name, value in list(template.get_params(deep=True).items()):
        if name.split("__")[-1] in ("damping", "mindist") and value is not None and not isinstance(value, bool) \
                and isinstance(value, (numbers.Real, np.generic)) and type(value) is not float:
            template.set_params(**{name: float(value)})
    return template


def estimator_key(est):
    """Hashable description of class + parameters (arrays by digest)."""
    from .. import core

    parts = [type(est).__name__]
    for name, value in sorted(est.get_params(deep=True).items()):
        if hasattr(value, "get_params"):
            parts.append("%s=<%s>" % (name, type(value).__name__))
        elif isinstance(value, (list, tuple, np.ndarray)):
            parts.append("%s=#%s" % (name, core.digest(value)[:12]))
        else:
            parts.append("%s=%r" % (name, value))
    return "|".join(parts)


class Ticket:
    """Everything known about one cross_val_score call when it returns."""

    def __init__(self, estimator, template, dataset, splits, scoring, mode, result, nested):
        from sklearn.base import clone as sk_clone

        self.estimator = estimator
        self.forbidden = {id(o): o for o in R.nested_objects(estimator)}
        self.template = template
        self.dataset = dataset
        self.splits = splits  # list of (train rows, test rows) as handed out, or None (default cv, delayed)
        self.scoring = scoring
        self.mode = mode  # serial | delayed | client
        self.result = result
        self.nested = nested
        self.binding = {}  # id(object) -> split index (an object serves one task only)
        self.keep = []
        self.snap = None
        self.probe = None
        self.est_key = estimator_key(template)
        self.ref = RefModel(dataset, lambda: sk_clone(template), self.est_key, scoring)
        self.serial_values = None


# --------------------------------------------------------------------------
# judges
# --------------------------------------------------------------------------
def _rows_text(rows):
    return None if rows is None else np.sort(np.asarray(rows))


def flush_local(run):
    """Decide the local clauses of every scoring event not yet judged (metric of the event's own arguments)."""
    with GL:
        with S.lock:
            pending = [e for e in S.events if not e.judged and e.kind in ("score", "score_method")]
        for e in pending:
            e.judged = True
            if e.exc is not None:
                run.count("raised:" + e.kind)
                continue
            monitor = "metric_of_event" if e.kind == "score" else "score_method_is_r2"
            if e.local_skip is not None:
                run.count("skipped:%s:%s" % (monitor, str(e.local_skip)[:60]))
                continue
            run.evaluated(monitor)
            tol = 1e-9 * e.local_scale
            try:
                err = abs(float(e.result) - e.local_expected)
            except (TypeError, ValueError):
                err = np.inf
            run.observe_max(monitor + "_error_over_tolerance", err / tol)
            if not err <= tol:
                ds, rows = S.identify(e.coordinates)
                run.violation(
                    monitor,
                    "%s returned %r; the %s metric of the predictions at the given points, mean over components with the "
                    "given weights as sample weights, is %r" % (e.kind, e.result, R.scoring_name(e.scoring), e.local_expected),
                    {"scoring": repr(e.scoring), "estimator": repr(e.obj), "coordinates": list(e.coordinates),
                     "data": list(e.data) if isinstance(e.data, tuple) else e.data,
                     "weights": list(e.weights) if isinstance(e.weights, tuple) else e.weights,
                     "returned": e.result, "expected": e.local_expected, "rows": rows},
                    key=monitor + ":" + str(R.scoring_name(e.scoring)),
                )
            if e.kind == "score_method":
                run.evaluated("score_leaves_model_unchanged")
                if e.state_changed:
                    run.violation("score_leaves_model_unchanged", "score() changed the fitted model: %s" % e.state_changed,
                                  {"estimator": repr(e.obj)}, key="score_mutates")


def judge_batch(run, ticket, events, values, label):
    """
    One execution of all splits of one cross_val_score call (serial, or one schedule of the delayed list).
    events: the fit / scoring records produced by it; values: the scores it returned, in split order (or None).
    """
    ds = ticket.dataset
    splits = ticket.splits
    witness_base = {"estimator": ticket.est_key, "scoring": repr(ticket.scoring), "schedule": label,
                    "coordinates": list(ds.coordinates), "data": list(ds.data),
                    "weights": None if ds.weights is None else list(ds.weights),
                    "splits": [[tr, te] for tr, te in splits]}
    scores = [e for e in events if e.kind == "score"]
    fits = [e for e in events if e.kind == "fit"]
    ok = True
    # splits that hand out the very same rows twice (ShuffleSplit over few blocks) are one class for the identity rules
    canon = []
    for j, (tr, te) in enumerate(splits):
        same = [i for i in range(j) if splits[i][1].size == te.size and splits[i][0].size == tr.size
                and np.array_equal(np.sort(splits[i][1]), np.sort(te)) and np.array_equal(np.sort(splits[i][0]), np.sort(tr))]
        canon.append(same[0] if same else j)

    def bad(monitor, message, extra, key):
        nonlocal ok
        ok = False
        witness = dict(witness_base)
        witness.update(extra)
        run.violation(monitor, "[%s] %s" % (label, message), witness, key=key)

    # --- exactly one scoring per split, each on its own fresh object -------
    run.evaluated("once_per_split")
    n_classes = len(set(canon))
    if not n_classes <= len(scores) <= len(splits):
        bad("once_per_split", "%d scoring events for %d splits (%d distinct)" % (len(scores), len(splits), n_classes), {}, "count")
    elif len(scores) < len(splits):
        # splits that hand out identical rows may be served by one task (client.submit is pure: identical tasks are computed once)
        run.count("note:identical_splits_served_by_one_task")
    by_obj = {}
    for s in scores:
        by_obj.setdefault(id(s.obj), []).append(s)
    shared = [v for v in by_obj.values() if len(v) > 1]
    if shared:
        bad("once_per_split", "one estimator object was scored for %d splits (no fresh clone per split)" % len(shared[0]),
            {"object": repr(shared[0][0].obj)}, "shared-object")
    used = set()
    completion = []
    for s in scores:
        run.evaluated("fresh_clone")
        if id(s.obj) in ticket.forbidden:
            bad("fresh_clone", "the estimator passed in (or one of its components) was scored, not a clone", {"object": repr(s.obj)}, "original-scored")
        for sub in R.nested_objects(s.obj)[1:]:
            if id(sub) in ticket.forbidden:
                bad("fresh_clone", "the scored object shares the component %r with the estimator passed in" % (sub,), {}, "shared-component")
        # rows seen by the scoring
        ds_s, rows_s = S.identify(s.coordinates)
        run.evaluated("scored_on_test_rows")
        if rows_s is None or ds_s is not ds:
            bad("scored_on_test_rows", "a scoring event saw coordinate pairs that are not rows of the dataset (easting/northing misaligned?)",
                {"seen_coordinates": list(s.coordinates)}, "score-unknown-rows")
            continue
        key_rows = np.sort(rows_s)
        k = None
        for j, (tr, te) in enumerate(splits):
            if j not in used and te.size == key_rows.size and np.array_equal(np.sort(te), key_rows):
                k = j
                break
        if k is None:
            which = [j for j, (tr, te) in enumerate(splits) if tr.size == key_rows.size and np.array_equal(np.sort(tr), key_rows)]
            what = "the TRAINING rows of split %d" % which[0] if which else "rows that are no test set handed out by the cross-validator"
            if any(np.array_equal(np.sort(te), key_rows) for tr, te in splits):
                what = "a test set that was already scored (split scored twice)"
            bad("scored_on_test_rows", "a scoring event saw %s" % what, {"rows_scored": key_rows}, "score-rows")
            continue
        used.add(k)
        completion.append(k)
        train, test = splits[k]
        problems = ds.alignment(rows_s, s.coordinates, s.data, s.weights)
        run.evaluated("test_rows_aligned")
        if problems:
            wrong = ""
            if ds.weights is not None and isinstance(s.weights, tuple) and all(w is not None for w in s.weights):
                m = min(train.size, rows_s.size)
                if all(np.array_equal(np.ravel(w)[:m], ds.weights[c][train][:m]) for c, w in enumerate(s.weights)):
                    wrong = " (the weights seen are those of the training rows)"
            bad("test_rows_aligned", "split %d scoring: %s%s" % (k, "; ".join(problems), wrong),
                {"split": k, "seen_data": list(s.data) if isinstance(s.data, tuple) else s.data,
                 "seen_weights": list(s.weights) if isinstance(s.weights, tuple) else s.weights}, "score-align:" + problems[0].split(" ")[0])
        # one object, one task
        run.evaluated("one_object_one_task")
        prev = ticket.binding.setdefault(id(s.obj), canon[k])
        ticket.keep.append(s.obj)
        if prev != canon[k]:
            bad("one_object_one_task", "object %r served split %d earlier and split %d now" % (s.obj, prev, k), {}, "two-tasks")
        # the fit of this object
        mine = [f for f in fits if f.obj is s.obj]
        run.evaluated("one_fit_before_scoring")
        if len(mine) != 1 or mine[0].n > s.n:
            bad("one_fit_before_scoring", "split %d: the scored object received %d fit events (%s) instead of exactly one before the scoring"
                % (k, len(mine), "after the scoring" if mine and mine[0].n > s.n else "in this execution"),
                {"split": k, "fit_rows": [_rows_text(S.identify(f.coordinates)[1]) for f in mine]}, "fit-count")
            if not mine:
                continue
        f = mine[0]
        if f.exc is not None:
            continue
        ds_f, rows_f = S.identify(f.coordinates)
        run.evaluated("fitted_on_train_rows")
        if rows_f is None or ds_f is not ds:
            bad("fitted_on_train_rows", "split %d: fit saw coordinate pairs that are not rows of the dataset" % k,
                {"seen_coordinates": list(f.coordinates)}, "fit-unknown-rows")
        elif rows_f.size != train.size or not np.array_equal(np.sort(rows_f), np.sort(train)):
            leaked = np.intersect1d(rows_f, test)
            bad("fitted_on_train_rows", "split %d: fit saw %d rows, the training set has %d; %d test rows leaked into the fit"
                % (k, rows_f.size, train.size, leaked.size), {"split": k, "rows_fitted": np.sort(rows_f), "leaked": leaked}, "fit-rows")
        else:
            problems = ds.alignment(rows_f, f.coordinates, f.data, f.weights)
            run.evaluated("train_rows_aligned")
            if problems:
                bad("train_rows_aligned", "split %d fit: %s" % (k, "; ".join(problems)),
                    {"split": k, "seen_data": list(f.data) if isinstance(f.data, tuple) else f.data,
                     "seen_weights": list(f.weights) if isinstance(f.weights, tuple) else f.weights}, "fit-align:" + problems[0].split(" ")[0])
        if f.thread != s.thread:
            run.count("fit_and_scoring_on_different_threads")
    if ok:
        missing = sorted(set(canon) - {canon[k] for k in used})
        if missing:
            bad("once_per_split", "no scoring event for split(s) %s" % missing, {}, "missing-split")
    # --- the numbers ---------------------------------------------------------
    if values is not None:
        vals = list(values)
        run.evaluated("result_shape")
        if len(vals) != len(splits):
            bad("result_shape", "%d scores returned for %d splits" % (len(vals), len(splits)), {"returned": vals}, "shape")
        else:
            refs = [ticket.ref.score(tr, te) for tr, te in splits]
            for k, (val, ref) in enumerate(zip(vals, refs)):
                if ref["skip"] is not None:
                    run.count("skipped:reference:" + str(ref["skip"]).split(":")[0][:50])
                    continue
                run.evaluated("score_vs_reference")
                try:
                    err = abs(float(val) - ref["value"])
                except (TypeError, ValueError):
                    err = np.inf
                run.observe_max("score_error_over_tolerance", err / ref["tol"])
                run.observe_max("reference_tolerance_over_scale", ref["tol"] / ref["scale"])
                if not err <= ref["tol"]:
                    others = [j for j, r in enumerate(refs) if j != k and r["skip"] is None and abs(float(val) - r["value"]) <= r["tol"]]
                    hint = " (it is the reference score of split %d)" % others[0] if others else ""
                    bad("score_vs_reference",
                        "scores[%d] = %r but the %s of a fresh estimator fitted on the training rows and evaluated on the test rows is %r "
                        "(tolerance %.3g)%s" % (k, val, ticket.ref.name, ref["value"], ref["tol"], hint),
                        {"split": k, "returned": vals, "expected": [r["value"] for r in refs], "tolerance": [r["tol"] for r in refs]},
                        "score-value:" + str(ticket.ref.name))
    return ok, completion


def check_untouched(run, ticket, when):
    run.evaluated("estimator_untouched")
    diff = R.snapshot_diff(ticket.snap, R.snapshot(ticket.estimator, probe=ticket.probe))
    if ticket.snap["nested"]:
        run.evaluated("meta_estimator_untouched_deeply")
        if diff:
            run.count("meta_estimator_touched")
    if _any_prediction(ticket.snap):
        run.evaluated("fitted_estimator_predicts_the_same")
    if diff:
        run.violation("estimator_untouched", "[%s] the estimator passed in was modified: %s" % (when, "; ".join(diff)[:600]),
                      {"estimator": ticket.est_key, "mode": ticket.mode}, key="touched:" + diff[0].split(" ")[1] if " " in diff[0] else "touched")


def _any_prediction(snap):
    return snap.get("predict") is not None or any(_any_prediction(v) for v in snap["nested"].values())


def splits_from_events(run, ds, events):
    """Default cross-validator (cv=None): the test folds are read off the scoring events; K-fold means train = complement."""
    tests = []
    for s in events:
        if s.kind != "score":
            continue
        ds_s, rows = S.identify(s.coordinates)
        if rows is None or ds_s is not ds:
            return None
        tests.append(np.sort(rows))
    everything = np.arange(ds.size)
    run.evaluated("default_cv_partitions")
    allrows = np.concatenate(tests) if tests else np.zeros(0, int)
    sizes = [t.size for t in tests]
    if len(tests) != 5 or not np.array_equal(np.sort(allrows), everything) or max(sizes) - min(sizes) > 1:
        run.violation("default_cv_partitions", "cv=None: the test sets seen are not a 5-fold partition of the rows (sizes %s)" % sizes,
                      {"test_sets": tests}, key="default-cv")
        return None
    return [(np.setdiff1d(everything, t), t) for t in tests]


# --------------------------------------------------------------------------
# installation
# --------------------------------------------------------------------------
def install(tap, run):
    import verde
    import verde.base.base_classes as bc
    import verde.base.utils as bu
    import verde.model_selection as ms
    from sklearn.base import clone as sk_clone

    from .. import core

    S.run = run
    warnings.simplefilter("ignore")
    # catch_warnings is not thread-safe and scikit-learn uses it inside the dask worker threads: warnings are
    # irrelevant to C12 (DESIGN 1.5), so this process never prints them
    warnings.showwarning = lambda *args, **kwargs: None

    # ---- recording monitors (any thread) -----------------------------------
    def pre_fit(ev):
        obj = ev.args.get("self")
        if isinstance(obj, verde.SplineCV) and not S.muted():
            cv = obj.cv
            return {"start": S.mark(), "tickets": len(S.tickets), "cv_calls": len(cv.calls) if isinstance(cv, R.RecordingCV) else None}
        return None

    def post_fit(ev):
        if S.muted():
            return
        a = ev.args
        rec = Rec("fit", a.get("self"), ev.thread)
        rec.coordinates, rec.data, rec.weights, rec.exc = a.get("coordinates"), a.get("data"), a.get("weights"), ev.exc
        rec.top = ev.parent is None
        S.add(rec)
        if isinstance(rec.obj, verde.SplineCV) and ev.pre is not None:
            with GL:
                judge_splinecv(run, ev)

    def local_expectation(rec, name, estimator, coordinates, data, weights):
        try:
            pred = estimator.predict(coordinates)  # no warnings.catch_warnings here: this runs in worker threads
            pred = pred if isinstance(pred, tuple) else (pred,)
            data_t = data if isinstance(data, tuple) else (data,)
            weights_t = weights if isinstance(weights, tuple) else (weights,)
            if name is None:
                rec.local_skip = "scoring not modelled"
                return
            val, scale = R.mean_metric(name, data_t, pred, weights_t)
            if val is None:
                rec.local_skip = scale
            else:
                rec.local_expected, rec.local_scale = val, scale
        except Exception as exc:  # noqa: BLE001
            rec.local_skip = "reference prediction failed: %s" % type(exc).__name__

    def post_score_estimator(ev):
        if S.muted():
            return
        a = ev.args
        rec = Rec("score", a.get("estimator"), ev.thread)
        rec.coordinates, rec.data, rec.weights = a.get("coordinates"), a.get("data"), a.get("weights")
        rec.scoring, rec.result, rec.exc = a.get("scoring"), ev.result, ev.exc
        if ev.exc is None:
            local_expectation(rec, R.scoring_name(rec.scoring), rec.obj, rec.coordinates, rec.data, rec.weights)
        S.add(rec)

    def pre_score(ev):
        obj = ev.args.get("self")
        try:
            return core.digest(dict(vars(obj)))
        except Exception:  # noqa: BLE001
            return None

    def post_score(ev):
        if S.muted():
            return
        a = ev.args
        rec = Rec("score_method", a.get("self"), ev.thread)
        rec.coordinates, rec.data, rec.weights = a.get("coordinates"), a.get("data"), a.get("weights")
        rec.scoring, rec.result, rec.exc = None, ev.result, ev.exc
        if ev.exc is None:
            local_expectation(rec, "r2", rec.obj, rec.coordinates, rec.data, rec.weights)
            after = core.digest(dict(vars(rec.obj)))
            rec.state_changed = None if after == ev.pre else "attribute digest differs after score()"
        S.add(rec)

    # ---- select -------------------------------------------------------------
    def post_select(ev):
        if S.muted() or ev.exc is not None:
            return
        arrays, index = ev.args["arrays"], ev.args["index"]
        res = ev.result
        with GL:
            run.evaluated("select")
            problem = None
            if arrays is None or any(i is None for i in arrays):
                if res is not arrays:
                    problem = "a tuple containing None must be returned as is"
            else:
                if not isinstance(res, tuple) or len(res) != len(arrays):
                    problem = "expected a tuple of %d arrays" % len(arrays)
                else:
                    for k, (src, got) in enumerate(zip(arrays, res)):
                        want = np.ravel(np.asarray(src))[np.asarray(index)]
                        if np.shape(got) != want.shape or not np.array_equal(np.asarray(got), want):
                            problem = "array %d of the result is not array %d of the input taken at the index" % (k, k)
                            break
            if problem:
                run.violation("select", problem, {"arrays": list(arrays) if arrays is not None else None, "index": np.asarray(index),
                                                  "result": list(res) if isinstance(res, tuple) else repr(res)}, key="select")

    # ---- cross_val_score ----------------------------------------------------
    def pre_cvs(ev):
        if S.muted():
            return None
        a = ev.args
        est, cv = a["estimator"], a["cv"]
        with warnings.catch_warnings():
            warnings.simplefilter("ignore")
            template = canonical(sk_clone(est))
        try:
            probe = tuple(np.array(np.ravel(np.asarray(c)), dtype="float64") for c in a["coordinates"])
        except Exception:  # noqa: BLE001
            probe = None
        return {"start": S.mark(), "snap": R.snapshot(est, probe=probe), "probe": probe, "template": template,
                "cv_calls": len(cv.calls) if isinstance(cv, R.RecordingCV) else None}

    def post_cvs(ev):
        if S.muted() or ev.pre is None:
            return
        with GL:
            _post_cvs(ev)

    def _post_cvs(ev):
        a, pre = ev.args, ev.pre
        if ev.exc is not None:
            run.count("raised:cross_val_score:" + type(ev.exc).__name__)
            return
        ds, rows = S.identify(a["coordinates"])
        if ds is None or not np.array_equal(rows, np.arange(ds.size)):
            run.count("unmonitored:cross_val_score_on_unregistered_data")
            return
        run.count("cross_val_score:nested" if ev.parent is not None else "cross_val_score:direct")
        # what cross_val_score was given must be the dataset (the harness passes it whole; SplineCV must pass it on whole)
        given = ds.alignment(rows, a["coordinates"], a["data"] if isinstance(a["data"], tuple) else (a["data"],),
                             a["weights"] if isinstance(a["weights"], tuple) else (a["weights"],))
        cv = a["cv"]
        mode = "delayed" if a["delayed"] else ("client" if a["client"] is not None else "serial")
        in_splinecv = ev.parent is not None and ev.parent.name == "SplineCV.fit"
        if in_splinecv:
            run.evaluated("splinecv_passes_data")
        if given:
            if in_splinecv:
                run.violation("splinecv_passes_data", "SplineCV.fit did not hand its data to cross_val_score whole: " + "; ".join(given),
                              {"coordinates": list(ds.coordinates), "weights_given": a["weights"] is not None}, key="splinecv-data")
            else:
                run.count("unmonitored:cross_val_score_on_partly_registered_data")
            return
        foreign_splits = None
        if cv is not None and not isinstance(cv, R.RecordingCV):
            # a bare scikit-learn / verde cross-validator: its splits are replayed here (twice: only a deterministic one can be judged)
            want = np.transpose([ds.coordinates[0], ds.coordinates[1]])
            try:
                one = [(np.array(tr), np.array(te)) for tr, te in cv.split(want)]
                two = [(np.array(tr), np.array(te)) for tr, te in cv.split(want)]
            except Exception:  # noqa: BLE001
                one, two = None, []
            if one is None or len(one) != len(two) or any(not (np.array_equal(x[0], y[0]) and np.array_equal(x[1], y[1])) for x, y in zip(one, two)):
                run.count("unmonitored:cross_val_score_with_non_deterministic_bare_cv")
                return
            run.count("cross_val_score:bare_cv_replayed")
            foreign_splits = one
        if isinstance(cv, R.RecordingCV):
            calls = cv.calls[pre["cv_calls"]:]
            calls = [c for c in calls if c["thread"] == ev.thread]
            run.evaluated("cv_used")
            calls = [c for c in calls if c["done"]]
            if not calls:
                run.violation("cv_used", "cross_val_score did not take its splits from the cross-validator it was given (no complete cv.split pass)",
                              {"cv": repr(cv)}, key="cv-calls")
                return
            if len(calls) > 1:
                run.count("note:cv.split_called_more_than_once")
            feat = calls[-1]["X"]
            want = np.transpose([ds.coordinates[0], ds.coordinates[1]])
            run.evaluated("cv_sees_rows_in_split_order")
            if feat.shape != want.shape or not np.array_equal(feat, want):
                permuted = feat.shape == want.shape and np.array_equal(feat[np.lexsort(feat.T)], want[np.lexsort(want.T)])
                worst = float(np.max(np.abs(feat - want))) if feat.shape == want.shape else None
                run.violation("cv_sees_rows_in_split_order",
                              "the features handed to the cross-validator are not the (easting, northing) coordinates as float64: %s"
                              % ("same points in another order than the C ravel the split indices are applied to" if permuted else
                                 "shape %s instead of %s" % (feat.shape, want.shape) if worst is None else "values differ by up to %.3g" % worst),
                              {"X": feat, "expected": want, "coordinates": list(a["coordinates"])}, key="cv-feature-order" if permuted else "cv-features")
                return
            # the splits used are those the cross-validator yields for the float64 coordinates (replayed where that is well defined)
            replayed = cv.replay(want)
            if replayed is not None:
                run.evaluated("splits_are_those_of_the_float64_coordinates")
                got = calls[-1]["splits"]
                if len(got) != len(replayed) or any(not (np.array_equal(x[0], y[0]) and np.array_equal(x[1], y[1])) for x, y in zip(got, replayed)):
                    run.violation("splits_are_those_of_the_float64_coordinates", "the (train, test) rows used differ from what the cross-validator yields for "
                                  "X = column_stack(easting, northing) in float64", {"used": [[x[0], x[1]] for x in got], "replayed": [[y[0], y[1]] for y in replayed],
                                                                                    "coordinates": list(ds.coordinates)}, key="cv-replay")
                    return
            splits = calls[-1]["splits"]
        else:
            splits = foreign_splits
        ticket = Ticket(a["estimator"], pre["template"], ds, splits, a["scoring"], mode, ev.result, ev.parent is not None)
        ticket.snap = pre["snap"]
        ticket.probe = pre["probe"]
        ticket.given_problems = given
        check_untouched(run, ticket, "after cross_val_score returned")
        S.tickets.append(ticket)
        if mode != "serial":
            run.evaluated("lazy_result")
            n_expected = None if splits is None else len(splits)
            if not isinstance(ev.result, (list, tuple)) or (n_expected is not None and len(ev.result) != n_expected):
                run.violation("lazy_result", "delayed/client cross_val_score must return a list with one lazy score per split",
                              {"result": repr(ev.result)[:300]}, key="lazy-shape")
            return
        events = S.since(pre["start"], thread=ev.thread)
        if splits is None:
            splits = splits_from_events(run, ds, events)
            if splits is None:
                return
            ticket.splits = splits
        run.evaluated("result_shape")
        if np.shape(ev.result) != (len(splits),):
            run.violation("result_shape", "serial cross_val_score must return an array with one score per split",
                          {"result": repr(ev.result)[:300]}, key="serial-shape")
            return
        ticket.serial_values = np.array(ev.result, dtype="float64")
        judge_batch(run, ticket, events, ev.result, "serial")
        if threading.get_ident() == S.main:
            flush_local(run)

    # ---- train_test_split ---------------------------------------------------
    def post_tts(ev):
        if S.muted():
            return
        with GL:
            _post_tts(ev)

    def _post_tts(ev):
        a = ev.args
        if ev.exc is not None:
            run.count("raised:train_test_split:" + type(ev.exc).__name__)
            return
        ds, rows = S.identify(a["coordinates"])
        if ds is None or not np.array_equal(rows, np.arange(ds.size)):
            run.count("unmonitored:train_test_split_on_unregistered_data")
            return
        wit = {"coordinates": list(ds.coordinates), "data": list(ds.data), "weights": None if ds.weights is None else list(ds.weights),
               "spacing": a["spacing"], "shape": a["shape"], "kwargs": a["kwargs"]}
        run.evaluated("split_structure")
        res = ev.result
        if not (isinstance(res, tuple) and len(res) == 2 and all(isinstance(p, tuple) and len(p) == 3 for p in res)):
            run.violation("split_structure", "expected (train, test), each a (coordinates, data, weights) tuple", dict(wit, result=repr(res)[:300]), key="tts-structure")
            return
        sides = []
        for name, part in zip(("train", "test"), res):
            coords, data, weights = part
            ds_p, rows_p = S.identify(coords)
            run.evaluated("split_rows_known")
            if rows_p is None or ds_p is not ds:
                run.violation("split_rows_known", "%s coordinates contain pairs that are not rows of the input (easting/northing misaligned)" % name,
                              dict(wit, seen=list(coords)), key="tts-unknown-rows")
                return
            problems = ds.alignment(rows_p, coords, data, weights)
            run.evaluated("split_aligned")
            if problems:
                run.violation("split_aligned", "%s set: %s" % (name, "; ".join(problems)),
                              dict(wit, rows=rows_p, seen_data=list(data), seen_weights=list(weights) if isinstance(weights, tuple) else weights),
                              key="tts-align:" + problems[0].split(" ")[0])
            sides.append(rows_p)
        train, test = sides
        # every input row is in exactly one of train / test: count the rows
        kw = a["kwargs"] or {}
        ts, tr = kw.get("test_size"), kw.get("train_size")
        blocked = a["spacing"] is not None or a["shape"] is not None
        run.count("tts_sizes_given:%s:%s" % ("blocked" if blocked else "plain",
                                            "both" if ts is not None and tr is not None else "test_size" if ts is not None else "train_size" if tr is not None else "neither"))

        def units(value, total, up):
            """scikit-learn semantics of a size: an int is a count, a float a fraction (test: ceil, train: floor). -> (count, alternative at a tie)"""
            if isinstance(value, (int, np.integer)) and not isinstance(value, bool):
                return int(value), None
            x = float(value) * total
            near = abs(x - round(x)) < 1e-9 * max(total, 1)
            main = int(np.ceil(x)) if up else int(np.floor(x))
            return main, (int(round(x)) if near and int(round(x)) != main else None)

        partial_by_request = False
        if ts is not None and tr is not None and not blocked:
            want_test, want_train = units(ts, ds.size, True)[0], units(tr, ds.size, False)[0]
            partial_by_request = want_test + want_train < ds.size  # the caller asked for subsets that leave rows out
        run.evaluated("split_complementary")
        both = np.concatenate([train, test])
        lost = ds.size - np.unique(both).size
        duplicated = both.size - np.unique(both).size
        if partial_by_request:
            run.count("unmonitored:sizes_leave_rows_out_by_request")
        if duplicated or (lost and not partial_by_request) or train.size == 0 or test.size == 0:
            run.violation("split_complementary", "train (%d rows) + test (%d rows) != the %d input rows: %d row(s) lost, %d row(s) on both sides "
                          "(test_size=%r, train_size=%r)" % (train.size, test.size, ds.size, lost, duplicated, ts, tr),
                          dict(wit, train=np.sort(train), test=np.sort(test)), key="tts-complement")
        # sizes (plain mode): an explicit test_size / train_size fixes the number of rows on that side, the other side is the complement
        if not blocked and (ts is not None or tr is not None) and not partial_by_request:
            if ts is not None:
                want, alt = units(ts, ds.size, True)
                side, have = "test", test.size
            else:
                want, alt = units(tr, ds.size, False)
                side, have = "train", train.size
            if alt is not None:
                run.count("either_way:size_fraction_at_a_rounding_tie")
            run.evaluated("split_sizes")
            if have != want and have != alt:
                run.violation("split_sizes", "%s_size=%r of %d rows means %d %s rows (the other side is the complement); got train=%d, test=%d"
                              % (side, ts if side == "test" else tr, ds.size, want, side, train.size, test.size),
                              dict(wit, train=np.sort(train), test=np.sort(test)), key="tts-sizes:" + side)
        if a["spacing"] is not None or a["shape"] is not None:
            labels, ambiguous = R.block_labels(ds.coordinates[0], ds.coordinates[1], spacing=a["spacing"], shape=a["shape"])
            if ambiguous:
                run.count("either_way:point_on_block_edge_or_block_count_tie")
            else:
                run.evaluated("split_whole_blocks")
                cut = np.intersect1d(labels[train], labels[test])
                if cut.size:
                    run.violation("split_whole_blocks", "%d block(s) have rows on both sides of the split" % cut.size,
                                  dict(wit, labels=labels, train=np.sort(train), test=np.sort(test)), key="tts-blocks")
                if np.unique(labels).size >= 3 and np.unique(labels).size < ds.size:
                    run.mark_nontrivial("tts-blocks", ds.coordinates[0], a["spacing"], a["shape"], np.sort(test))
        else:
            run.mark_nontrivial("tts", ds.coordinates[0], np.sort(test), len(ds.data), ds.weights is not None)

    # ---- SplineCV -----------------------------------------------------------
    # documented defaults: an argument the caller leaves out is judged with the default the documentation states, not with
    # whatever the signature of the tree under test supplies
    tap.method(bc.BaseGridder, "fit", post=post_fit, pre=pre_fit, documented={"weights": None})
    tap.method(bc.BaseGridder, "score", post=post_score, pre=pre_score, documented={"weights": None})
    tap.function(bu, "score_estimator", post=post_score_estimator, documented={"weights": None})
    tap.function(ms, "select", post=post_select)
    tap.function(ms, "cross_val_score", post=post_cvs, pre=pre_cvs,
                 documented={"weights": None, "cv": None, "client": None, "delayed": False, "scoring": None})
    tap.function(ms, "train_test_split", post=post_tts, documented={"weights": None, "spacing": None, "shape": None})


def judge_splinecv(run, ev):
    """SplineCV.fit: grid in product order, scores_ = mean CV scores, argmax selected, then an ordinary Spline on all the data."""
    import dask
    import verde

    obj, a, pre = ev.args["self"], ev.args, ev.pre
    if ev.exc is not None:
        run.count("raised:SplineCV.fit:" + type(ev.exc).__name__)
        return
    ds, rows = S.identify(a["coordinates"])
    if ds is None or not np.array_equal(rows, np.arange(ds.size)) or len(ds.data) != 1:
        run.count("unmonitored:SplineCV_on_unregistered_data")
        return
    mode = "delayed" if obj.delayed else ("client" if obj.client is not None else "serial")
    weighted = a["weights"] is not None
    cands = list(itertools.product(list(obj.mindists), list(obj.dampings)))
    wit = {"coordinates": list(ds.coordinates), "data": list(ds.data), "weights": None if ds.weights is None else list(ds.weights),
           "mindists": list(obj.mindists), "dampings": list(obj.dampings), "scoring": repr(obj.scoring), "cv": repr(obj.cv), "mode": mode}
    if weighted != (ds.weights is not None):
        run.count("unmonitored:SplineCV_weights_not_registered")
        return
    tickets = S.tickets[pre["tickets"]:]
    # expected splits per candidate
    if isinstance(obj.cv, R.RecordingCV):
        calls = [c for c in obj.cv.calls[pre["cv_calls"]:] if c["done"]]
        run.evaluated("splinecv_uses_cv")
        if not calls:
            run.violation("splinecv_uses_cv", "the cross-validator given to SplineCV was never asked for splits", wit, key="splinecv-cv")
            return
        first = calls[0]["splits"]
        all_same = all(len(c["splits"]) == len(first) and all(np.array_equal(x[0], y[0]) and np.array_equal(x[1], y[1])
                                                              for x, y in zip(c["splits"], first)) for c in calls[1:])
        if mode != "client" and len(tickets) == len(cands) and all(t.splits is not None for t in tickets):
            # the nested cross_val_score calls are visible, in candidate order: each was judged with the splits of its own cv.split pass
            per_cand = [t.splits for t in tickets]
        elif mode == "client" and not all_same:
            # candidates run concurrently in the cluster: the order of the split() passes says nothing; take each candidate's splits
            # from the nested cross_val_score call that was made for it (told apart by the Spline parameters)
            per_cand = []
            for m, d in cands:
                mine = [t for t in tickets if t.splits is not None and t.template.mindist == m and (t.template.damping == d or (t.template.damping is None and d is None))]
                if len(mine) != 1:
                    run.count("unmonitored:SplineCV_client_splits_cannot_be_attributed_to_candidates")
                    return
                per_cand.append(mine[0].splits)
        elif len(calls) == len(cands):
            per_cand = [c["splits"] for c in calls]
        else:
            first = calls[0]["splits"]
            if any(len(c["splits"]) != len(first) or any(not (np.array_equal(a[0], b[0]) and np.array_equal(a[1], b[1]))
                                                          for a, b in zip(c["splits"], first)) for c in calls[1:]):
                run.count("unmonitored:SplineCV_splits_cannot_be_attributed_to_candidates")
                return
            per_cand = [first for _ in cands]
    else:
        # default (cv=None) or bare cross-validator: the splits are those the nested cross_val_score calls were judged with
        if mode == "client" or len(tickets) != len(cands) or any(t.splits is None for t in tickets):
            run.count("unmonitored:SplineCV_without_proxy_cv_and_no_visible_nested_calls")
            return
        per_cand = [t.splits for t in tickets]
    # candidates reach cross_val_score in product order (serial / delayed: the nested calls are visible)
    if mode in ("serial", "delayed"):
        run.evaluated("splinecv_candidates")
        seen = [(t.template.mindist, t.template.damping) for t in tickets]
        if seen != [(m, d) for m, d in cands]:
            run.violation("splinecv_candidates", "cross_val_score was called for candidates %s, expected product(mindists, dampings) = %s" % (seen, cands),
                          wit, key="splinecv-candidates")
    # reference mean scores
    scoring = obj.scoring if mode != "client" else None
    expected, tols, skip = [], [], None
    for (mindist, damping), splits in zip(cands, per_cand):
        def make(mindist=mindist, damping=damping):
            # the reference spells the candidate as Python floats (damping=1 and damping=1.0 are the same model)
            return verde.Spline(mindist=float(mindist), damping=None if damping is None else float(damping), engine=obj.engine,
                                force_coords=obj.force_coords)

        from .. import core

        ref = RefModel(ds, make, "Spline|%r|%r|%r|%s" % (mindist, damping, obj.engine, core.digest(obj.force_coords)[:10]), scoring)
        rs = [ref.score(tr, te) for tr, te in splits]
        bad = [r["skip"] for r in rs if r["skip"] is not None]
        if bad:
            skip = bad[0]
            break
        expected.append(float(np.mean([r["value"] for r in rs])))
        tols.append(float(np.mean([r["tol"] for r in rs])))
    if skip is not None:
        run.count("skipped:splinecv:" + str(skip).split(":")[0][:50])
        return
    # observed scores_
    observed = obj.scores_
    lazy = len(observed) > 0 and all(hasattr(v, "compute") for v in observed)
    if lazy != (mode == "delayed"):
        run.count("note:scores_%s_although_delayed=%s" % ("lazy" if lazy else "computed", obj.delayed))
    if lazy:
        with S.mute():
            observed = dask.compute(*observed, scheduler="synchronous")
    observed = np.array([float(v) for v in observed])
    run.evaluated("splinecv_scores")
    if observed.shape != (len(cands),):
        run.violation("splinecv_scores", "scores_ has %d entries for %d candidates" % (observed.size, len(cands)), dict(wit, scores_=observed), key="splinecv-scores-shape")
        return
    err = np.abs(observed - np.array(expected))
    run.observe_max("splinecv_score_error_over_tolerance", float(np.max(err / np.array(tols))))
    if np.any(err > np.array(tols)):
        j = int(np.argmax(err / np.array(tols)))
        run.violation("splinecv_scores", "scores_[%d] = %r for (mindist, damping) = %r; the mean cross-validated %s of that candidate is %r (tolerance %.3g)"
                      % (j, observed[j], cands[j], R.scoring_name(scoring), expected[j], tols[j]),
                      dict(wit, scores_=observed, expected=expected, candidates=[list(c) for c in cands]), key="splinecv-scores")
    # selection
    chosen = (obj.spline_.mindist, obj.spline_.damping)
    hits = [j for j, c in enumerate(cands) if c[0] == chosen[0] and c[1] == chosen[1]]
    run.evaluated("splinecv_argmax")
    best = int(np.argmax(expected))
    if not hits:
        run.violation("splinecv_argmax", "the selected parameters %r are not among the candidates" % (chosen,), wit, key="splinecv-chosen")
        return
    j = max(hits, key=lambda i: expected[i])
    margin = tols[j] + tols[best]
    close = [i for i in range(len(cands)) if i != best and expected[best] - expected[i] <= tols[i] + tols[best]]
    if close:
        run.count("either_way:splinecv_near_tie")
    if expected[j] < expected[best] - margin:
        worst = int(np.argmin(expected))
        run.violation("splinecv_argmax", "selected (mindist, damping) = %r with mean score %r, but candidate %r has the highest mean score %r%s"
                      % (chosen, expected[j], cands[best], expected[best], " (the selected one has the LOWEST)" if j == worst else ""),
                      dict(wit, expected=expected, candidates=[list(c) for c in cands], scores_=observed), key="splinecv-argmax")
    if len(cands) >= 2 and max(expected) - min(expected) > 10 * max(tols):
        run.mark_nontrivial("splinecv", ds.coordinates[0], ds.data[0], cands, repr(obj.scoring), weighted, mode, len(per_cand[0]))
    # the final model carries the configured force_coords / engine
    run.evaluated("splinecv_final_model_configuration")
    final = obj.spline_
    want_forces = tuple(np.ravel(np.asarray(c, dtype="float64")) for c in (obj.force_coords if obj.force_coords is not None else ds.coordinates[:2]))
    try:
        got_forces = tuple(np.ravel(np.asarray(c, dtype="float64")) for c in final.force_coords_[:2])
        n_force = int(np.size(final.force_))
    except Exception:  # noqa: BLE001
        got_forces, n_force = (), -1
    problems = []
    if len(got_forces) != 2 or any(g.shape != w.shape or not np.array_equal(g, w) for g, w in zip(got_forces, want_forces)):
        problems.append("force_coords_ of the final spline are not the %s" % ("configured force_coords" if obj.force_coords is not None else "data coordinates"))
    if n_force != want_forces[0].size:
        problems.append("force_ has %d entries for %d forces" % (n_force, want_forces[0].size))
    if getattr(final, "engine", None) != obj.engine:
        problems.append("engine of the final spline is %r, configured %r" % (getattr(final, "engine", None), obj.engine))
    if problems:
        run.violation("splinecv_final_model_configuration", "; ".join(problems), dict(wit, force_coords=None if obj.force_coords is None else list(obj.force_coords),
                                                                                     engine=obj.engine), key="splinecv-final-config")
    # predictions = ordinary Spline with the selected parameters fitted to all the data
    c_all, d_all, w_all = ds.take(np.arange(ds.size))
    mid = tuple(0.5 * (c[:-1] + c[1:]) for c in c_all[:2])
    probe = tuple(np.concatenate([c, m]) for c, m in zip(c_all[:2], mid))
    preds = []
    prm = np.random.default_rng(ds.size)
    with S.mute(), warnings.catch_warnings():
        warnings.simplefilter("ignore")
        for trial in range(3):
            order = np.arange(ds.size) if trial == 0 else prm.permutation(ds.size)
            c, d, w = ds.take(order)
            fc = obj.force_coords
            if fc is None and trial > 0:
                fc = tuple(x.copy() for x in c_all[:2])  # same forces, only the data rows reordered
            spl = verde.Spline(mindist=float(chosen[0]), damping=None if chosen[1] is None else float(chosen[1]), engine=obj.engine, force_coords=fc)
            spl.fit(c, d[0], None if w is None else w[0])
            preds.append(np.asarray(spl.predict(probe), dtype="float64"))
        got = np.asarray(obj.predict(probe), dtype="float64")
    sens = max(float(np.max(np.abs(p - preds[0]))) for p in preds[1:])
    tol = max(1e-9 * ds.scale[0], 100 * sens)
    if tol > 1e-3 * ds.scale[0]:
        run.count("skipped:splinecv_prediction:ill-conditioned")
    else:
        run.evaluated("splinecv_predicts_like_spline")
        perr = float(np.max(np.abs(got - preds[0]))) if got.shape == preds[0].shape else np.inf
        run.observe_max("splinecv_prediction_error_over_tolerance", perr / tol)
        if not perr <= tol:
            run.violation("splinecv_predicts_like_spline",
                          "SplineCV predictions differ by %.3g (tolerance %.3g) from Spline(mindist=%r, damping=%r) fitted to all the data"
                          % (perr, tol, chosen[0], chosen[1]), dict(wit, probe=list(probe), predicted=got, expected=preds[0]), key="splinecv-predict")
    S.last_splinecv = {"tickets": tickets, "cands": cands, "per_cand": per_cand, "mode": mode}
    # delayed: the events of all candidates arrived during best.compute(); judge them per candidate
    if mode == "delayed" and len(tickets) == len(cands):
        judge_candidates(run, tickets, cands, per_cand, S.since(pre["start"]), "SplineCV.fit(delayed)")
    if threading.get_ident() == S.main:
        flush_local(run)


def judge_candidates(run, tickets, cands, per_cand, events, label):
    """Events of several candidates mixed in time (delayed grid search): one batch per candidate, told apart by the clone's parameters."""
    for t, cand, splits in zip(tickets, cands, per_cand):
        t.splits = splits
        mine = [e for e in events if e.kind in ("fit", "score") and type(e.obj).__name__ == "Spline"
                and getattr(e.obj, "mindist", None) == cand[0] and getattr(e.obj, "damping", None) == cand[1]]
        judge_batch(run, t, mine, None, label)
        check_untouched(run, t, "after " + label)
