"""
Reference side of the C12 check. Nothing here imports verde.

* ``Dataset``      - rows made identifiable: unique coordinate pairs -> row id, so any array of
                     coordinates seen by a ``fit`` / scoring event names exactly the rows it saw.
* ``RecordingCV``  - cross-validator proxy (``split`` / ``get_n_splits``) that records the
                     (train, test) index arrays it hands out. The records live in a module level
                     table keyed by a uid, so a pickled copy (dask.distributed) still reports here.
* ``np_metric``    - the metrics of the statement in plain numpy (weighted R2, neg MSE / RMSE / MAE,
                     the harness callable), one data component at a time.
* ``HarnessScorer``- a callable scorer of the scikit-learn calling convention written by the harness.
* ``snapshot``     - deep description of an estimator (attribute names and value digests, nested
                     estimators included) for the "left untouched" clause.
"""
import itertools
import threading

import numpy as np

from .. import core

_UID = itertools.count(1)
_CALLS = {}  # uid -> list of split() calls
_CALLS_LOCK = threading.Lock()


# --------------------------------------------------------------------------
# identifiable rows
# --------------------------------------------------------------------------
class Dataset:
    """Flat reference copy of one dataset; the presented arrays may have any layout."""

    def __init__(self, coordinates, data, weights):
        self.coordinates = tuple(np.array(np.ravel(np.asarray(c)), dtype="float64") for c in coordinates)
        self.data = tuple(np.array(np.ravel(np.asarray(d)), dtype="float64") for d in data)
        self.weights = None if weights is None else tuple(np.array(np.ravel(np.asarray(w)), dtype="float64") for w in weights)
        self.size = self.coordinates[0].size
        self.index = {}
        for i, key in enumerate(zip(self.coordinates[0].tolist(), self.coordinates[1].tolist())):
            if key in self.index:
                raise ValueError("coordinates are not unique")
            self.index[key] = i
        self.scale = tuple(float(np.max(np.abs(d - d.mean()))) or 1.0 for d in self.data)

    def rows(self, coordinates):
        """Row ids named by the first two coordinate arrays, or None if some pair is not a row of this dataset."""
        try:
            east = np.ravel(np.asarray(coordinates[0], dtype="float64"))
            north = np.ravel(np.asarray(coordinates[1], dtype="float64"))
        except (TypeError, ValueError, IndexError):
            return None
        if east.shape != north.shape:
            return None
        out = np.empty(east.size, dtype=np.int64)
        get = self.index.get
        for k, key in enumerate(zip(east.tolist(), north.tolist())):
            i = get(key, -1)
            if i < 0:
                return None
            out[k] = i
        return out

    def alignment(self, rows, coordinates, data, weights):
        """Problems (list of str) if extra coordinates / data components / weight components are not the values of *rows*."""
        problems = []
        for k, extra in enumerate(coordinates[2:]):
            k += 2
            if k >= len(self.coordinates):
                problems.append("coordinate array %d does not exist in the dataset" % k)
            elif not _same(extra, self.coordinates[k][rows]):
                problems.append("coordinate array %d is not aligned with easting/northing" % k)
        if len(coordinates) != len(self.coordinates):
            problems.append("%d coordinate arrays seen, the dataset has %d" % (len(coordinates), len(self.coordinates)))
        data = data if isinstance(data, tuple) else (data,)
        if len(data) != len(self.data):
            problems.append("%d data components seen, the dataset has %d" % (len(data), len(self.data)))
        for c, comp in enumerate(data[: len(self.data)]):
            if comp is None or not _same(comp, self.data[c][rows]):
                problems.append("data component %d is not aligned with the coordinates" % c)
        weights = weights if isinstance(weights, tuple) else (weights,)
        if self.weights is None:
            if any(w is not None for w in weights):
                problems.append("weights seen although the dataset has none")
        else:
            if len(weights) != len(self.weights) or any(w is None for w in weights):
                problems.append("weights missing: %d non-None components seen, the dataset has %d"
                                % (sum(w is not None for w in weights), len(self.weights)))
            else:
                for c, comp in enumerate(weights):
                    if not _same(comp, self.weights[c][rows]):
                        other = [j for j in range(len(self.weights)) if j != c and _same(comp, self.weights[j][rows])]
                        problems.append("weight component %d is not the weights of these rows%s"
                                        % (c, " (it is component %d)" % other[0] if other else ""))
        return problems

    def take(self, rows):
        coords = tuple(c[rows] for c in self.coordinates)
        data = tuple(d[rows] for d in self.data)
        weights = None if self.weights is None else tuple(w[rows] for w in self.weights)
        return coords, data, weights


def _same(seen, expected):
    try:
        seen = np.ravel(np.asarray(seen, dtype="float64"))
    except (TypeError, ValueError):
        return False
    return seen.shape == expected.shape and bool(np.array_equal(seen, expected))


# --------------------------------------------------------------------------
# recording cross-validator proxy
# --------------------------------------------------------------------------
class RecordingCV:
    """
    Wraps any cross-validator; records what ``split`` hands out.

    ``thin`` in (0, 1): additionally drop that fraction of every training set (a legitimate
    cross-validator whose train set is *not* the complement of the test set).
    """

    def __init__(self, inner, label, thin=0.0, thin_seed=0, as_list=False, remake=None):
        self.as_list = bool(as_list)  # split() returns a list instead of a generator
        self.remake = remake  # builds an equally seeded inner cross-validator again (only where a replay is well defined), else None
        self.inner = inner
        self.label = label
        self.thin = float(thin)
        self.thin_seed = int(thin_seed)
        self.uid = next(_UID)
        with _CALLS_LOCK:
            _CALLS[self.uid] = []

    @property
    def calls(self):
        return _CALLS.setdefault(self.uid, [])

    def split(self, X, y=None, groups=None):  # noqa: N803
        if self.as_list:
            return list(self._split(X, y, groups))
        return self._split(X, y, groups)

    def _split(self, X, y=None, groups=None):  # noqa: N803
        rec = {"X": np.array(X, dtype="float64", copy=True), "splits": [], "thread": threading.get_ident(), "done": False}
        with _CALLS_LOCK:
            self.calls.append(rec)
        thin_rng = np.random.default_rng(self.thin_seed)
        for train, test in self.inner.split(X, y, groups):
            train, test = np.array(train, dtype=np.int64), np.array(test, dtype=np.int64)
            if self.thin > 0:
                keep = thin_rng.random(train.size) >= self.thin
                if keep.sum() >= 8:
                    train = train[keep]
            rec["splits"].append((train.copy(), test.copy()))
            yield train, test
        rec["done"] = True

    def get_n_splits(self, X=None, y=None, groups=None):  # noqa: N803
        return self.inner.get_n_splits(X, y, groups)

    def replay(self, X):  # noqa: N803
        """The splits an equally configured and seeded cross-validator yields for the feature matrix X (None if not replayable)."""
        if self.remake is None:
            return None
        twin = RecordingCV(self.remake(), self.label, self.thin, self.thin_seed)
        out = list(twin._split(X))
        with _CALLS_LOCK:
            _CALLS.pop(twin.uid, None)
        return out

    def __repr__(self):
        return "RecordingCV(%s)" % self.label


def forget_recordings():
    with _CALLS_LOCK:
        _CALLS.clear()


# --------------------------------------------------------------------------
# metrics in numpy
# --------------------------------------------------------------------------
class HarnessScorer:
    """scorer(estimator, X, y, sample_weight=None) -> minus the weighted mean of |y - prediction| ** 1.5."""

    def __call__(self, estimator, X, y, sample_weight=None):  # noqa: N803
        pred = np.ravel(np.asarray(estimator.predict(X), dtype="float64"))
        y = np.ravel(np.asarray(y, dtype="float64"))
        w = np.ones_like(y) if sample_weight is None else np.ravel(np.asarray(sample_weight, dtype="float64"))
        return -float(np.sum(w * np.abs(y - pred) ** 1.5) / np.sum(w))

    def __repr__(self):
        return "HarnessScorer()"


METRICS = ("r2", "neg_mean_squared_error", "neg_root_mean_squared_error", "neg_mean_absolute_error", "callable")


_SKLEARN_METRIC_FUNCTIONS = {"r2_score": (1, "r2"), "mean_squared_error": (-1, "neg_mean_squared_error"),
                             "root_mean_squared_error": (-1, "neg_root_mean_squared_error"),
                             "mean_absolute_error": (-1, "neg_mean_absolute_error")}


class PlainCallable:
    """
    scorer(estimator, X, y, sample_weight=None) for one of the standard metrics, spelled as a plain callable.
    Computes through sklearn.metrics (the reference side recomputes the same metric with its own numpy formula).
    """

    def __init__(self, name):
        self.name = name

    def __call__(self, estimator, X, y, sample_weight=None):  # noqa: N803
        import sklearn.metrics as skm

        pred = estimator.predict(X)
        if self.name == "r2":
            return skm.r2_score(y, pred, sample_weight=sample_weight)
        if self.name == "neg_mean_squared_error":
            return -skm.mean_squared_error(y, pred, sample_weight=sample_weight)
        if self.name == "neg_root_mean_squared_error":
            return -skm.root_mean_squared_error(y, pred, sample_weight=sample_weight)
        if self.name == "neg_mean_absolute_error":
            return -skm.mean_absolute_error(y, pred, sample_weight=sample_weight)
        raise ValueError(self.name)

    def __repr__(self):
        return "PlainCallable(%r)" % self.name


def scoring_name(scoring):
    """The metric a scoring specification stands for: None, a string, a scikit-learn scorer object or a harness callable."""
    if scoring is None:
        return "r2"
    if isinstance(scoring, HarnessScorer):
        return "callable"
    if isinstance(scoring, PlainCallable):
        return scoring.name
    if isinstance(scoring, str):
        return scoring
    func = getattr(scoring, "_score_func", None)  # sklearn.metrics.get_scorer / make_scorer objects
    sign = getattr(scoring, "_sign", None)
    if func is not None and getattr(func, "__name__", None) in _SKLEARN_METRIC_FUNCTIONS and not getattr(scoring, "_kwargs", None):
        want_sign, name = _SKLEARN_METRIC_FUNCTIONS[func.__name__]
        if sign == want_sign:
            return name
    return None


def spell_scoring(name, spelling):
    """The same metric as a string, a scikit-learn scorer object (get_scorer / make_scorer), a plain callable, or None (default R2)."""
    import sklearn.metrics as skm

    if name == "callable":
        return HarnessScorer()
    if spelling == "none":
        assert name == "r2"
        return None
    if spelling == "string":
        return name
    if spelling == "get_scorer":
        return skm.get_scorer(name)
    if spelling == "make_scorer":
        func = {"r2": skm.r2_score, "neg_mean_squared_error": skm.mean_squared_error,
                "neg_root_mean_squared_error": skm.root_mean_squared_error, "neg_mean_absolute_error": skm.mean_absolute_error}[name]
        return skm.make_scorer(func, greater_is_better=(name == "r2"))
    if spelling == "plain_callable":
        return PlainCallable(name)
    raise ValueError(spelling)


def np_metric(name, y, pred, w):
    """One component. Returns (value, scale) with scale = magnitude the 1e-9 relative margin refers to; value None if undefined."""
    y = np.ravel(np.asarray(y, dtype="float64"))
    pred = np.ravel(np.asarray(pred, dtype="float64"))
    if y.shape != pred.shape:
        return None, 1.0
    w = np.ones_like(y) if w is None else np.ravel(np.asarray(w, dtype="float64"))
    wsum = float(np.sum(w))
    if y.size == 0 or not wsum > 0 or not (np.all(np.isfinite(pred)) and np.all(np.isfinite(y))):
        return None, 1.0
    res = y - pred
    if name == "r2":
        if y.size < 2:
            return None, 1.0
        ybar = float(np.sum(w * y)) / wsum
        den = float(np.sum(w * (y - ybar) ** 2))
        num = float(np.sum(w * res ** 2))
        if not den > 0:
            return None, 1.0
        return 1.0 - num / den, max(1.0, num / den)
    if name == "neg_mean_squared_error":
        val = -float(np.sum(w * res ** 2)) / wsum
    elif name == "neg_root_mean_squared_error":
        val = -float(np.sqrt(np.sum(w * res ** 2) / wsum))
    elif name == "neg_mean_absolute_error":
        val = -float(np.sum(w * np.abs(res))) / wsum
    elif name == "callable":
        val = -float(np.sum(w * np.abs(res) ** 1.5)) / wsum
    else:
        return None, 1.0
    return val, abs(val) + np.finfo("float64").tiny


def mean_metric(name, data, predicted, weights):
    """Mean over components of the per-component metric (each with its own weights). (value, scale) or (None, reason)."""
    data = data if isinstance(data, tuple) else (data,)
    predicted = predicted if isinstance(predicted, tuple) else (predicted,)
    weights = weights if isinstance(weights, tuple) else (weights,)
    if len(predicted) != len(data):
        return None, "the model predicts %d components, the data has %d" % (len(predicted), len(data))
    if len(weights) != len(data):
        if all(w is None for w in weights):
            weights = (None,) * len(data)
        else:
            return None, "weights/data component mismatch"
    vals, scales = [], []
    for y, p, w in zip(data, predicted, weights):
        val, scale = np_metric(name, y, p, w)
        if val is None:
            return None, "metric undefined (constant data, non-finite prediction or empty set)"
        vals.append(val)
        scales.append(scale)
    return float(np.mean(vals)), float(np.max(scales))


# --------------------------------------------------------------------------
# "left untouched"
# --------------------------------------------------------------------------
def snapshot(est, depth=0, probe=None):
    """
    Attribute names, digests of attribute values and get_params keys of an estimator and of every estimator
    nested in it (Chain steps, Vector components, chains of chains); with *probe* coordinates also a digest of
    what each of them predicts there (None while it is not fitted).
    """
    out = {"class": type(est).__name__, "attrs": {}, "nested": {}, "predict": None}
    if probe is not None and hasattr(est, "predict"):
        try:
            out["predict"] = core.digest(est.predict(probe))
        except Exception:  # noqa: BLE001 - not fitted (or cannot predict on its own): nothing to preserve
            out["predict"] = None
    try:
        out["params"] = core.digest({k: v for k, v in est.get_params(deep=False).items() if not hasattr(v, "get_params")})
        out["param_names"] = sorted(est.get_params(deep=True))
    except Exception as exc:  # noqa: BLE001
        out["params"] = "get_params failed: %r" % (exc,)
    for name, value in sorted(vars(est).items()):
        out["attrs"][name] = core.digest(value)
        if depth < 4:
            for path, sub in _nested_estimators(name, value):
                out["nested"][path] = snapshot(sub, depth + 1, probe)
    return out


def _nested_estimators(name, value):
    if hasattr(value, "get_params") and not isinstance(value, type):
        yield name, value
    elif isinstance(value, (list, tuple)):
        for k, item in enumerate(value):
            if hasattr(item, "get_params") and not isinstance(item, type):
                yield "%s[%d]" % (name, k), item
            elif isinstance(item, (list, tuple)):
                for j, sub in enumerate(item):
                    if hasattr(sub, "get_params") and not isinstance(sub, type):
                        yield "%s[%d][%d]" % (name, k, j), sub


def nested_objects(est, depth=0):
    """The estimator and every estimator reachable from its attributes (objects, for identity tests)."""
    out = [est]
    if depth < 4:
        for name, value in vars(est).items():
            for _, sub in _nested_estimators(name, value):
                out.extend(nested_objects(sub, depth + 1))
    return out


def snapshot_diff(before, after, path="estimator"):
    """Human readable differences between two snapshots (empty list = untouched)."""
    out = []
    if before["class"] != after["class"]:
        out.append("%s: class changed" % path)
    gained = sorted(set(after["attrs"]) - set(before["attrs"]))
    lost = sorted(set(before["attrs"]) - set(after["attrs"]))
    if gained:
        out.append("%s gained attributes %s" % (path, gained))
    if lost:
        out.append("%s lost attributes %s" % (path, lost))
    changed = sorted(k for k in before["attrs"] if k in after["attrs"] and before["attrs"][k] != after["attrs"][k])
    if changed:
        out.append("%s: attributes changed value: %s" % (path, changed))
    if before.get("params") != after.get("params") or before.get("param_names") != after.get("param_names"):
        out.append("%s: get_params() changed" % path)
    if before.get("predict") != after.get("predict"):
        out.append("%s: %s" % (path, "predicts differently than before the call" if before.get("predict") is not None
                               else "was not fitted before the call and predicts now"))
    for key in sorted(set(before["nested"]) | set(after["nested"])):
        if key not in before["nested"] or key not in after["nested"]:
            out.append("%s.%s: nested estimator appeared/disappeared" % (path, key))
        else:
            out.extend(snapshot_diff(before["nested"][key], after["nested"][key], path + "." + key))
    return out


# --------------------------------------------------------------------------
# blocks (train_test_split with spacing / shape)
# --------------------------------------------------------------------------
def block_labels(east, north, spacing=None, shape=None, margin=1e-6):
    """
    Block of every point for equal rectangular blocks over the bounding box of the points
    (shape = (n_north, n_east), or spacing = s | (s_north, s_east) with the number of blocks
    rounded to the nearest integer, at least one). Returns (labels, ambiguous) where ambiguous
    is True if some point is within *margin* block sizes of an interior block edge or the
    number of blocks is a rounding tie.
    """
    from .. import ref

    east, north = np.ravel(east).astype("float64"), np.ravel(north).astype("float64")
    bounds = [(east.min(), east.max()), (north.min(), north.max())]
    if shape is not None:
        counts, tie = [int(shape[1]), int(shape[0])], False
    else:
        sp = np.atleast_1d(spacing)
        sp_n, sp_e = (sp[0], sp[0]) if sp.size == 1 else (sp[0], sp[1])
        counts, tie = [], False
        for (lo, hi), s in zip(bounds, (sp_e, sp_n)):
            n, t = ref.n_intervals_for(lo, hi, None, float(s))
            counts.append(int(n))
            tie = tie or t
    ambiguous = bool(tie)
    idx = []
    for values, (lo, hi), n in zip((east, north), bounds, counts):
        if hi <= lo:
            idx.append(np.zeros(values.size, dtype=np.int64))
            continue
        t = (values - lo) / ((hi - lo) / n)
        k = np.clip(np.floor(t).astype(np.int64), 0, n - 1)
        near = np.abs(t - np.round(t)) < margin
        interior = (np.round(t) > 0) & (np.round(t) < n)
        if np.any(near & interior):
            ambiguous = True
        idx.append(k)
    return idx[1] * counts[0] + idx[0], ambiguous
