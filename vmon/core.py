"""
Verdicts, evidence, replays, known findings and the check driver.

A *check* is: install the property's monitors on the real verde callables,
drive the property's workload (seeded, case by case), let the monitors observe,
then decide a three-valued verdict from what the monitors actually saw.
"""
import collections
import hashlib
import importlib
import json
import os
import signal
import subprocess
import sys
import threading
import time
import traceback
import zlib

import numpy as np

from . import boot

VERIF = boot.VERIF
EXIT_HELD, EXIT_VIOLATED, EXIT_INCONCLUSIVE = 0, 1, 2
MAX_REPLAYS = 12
MAX_SAMPLES = 6


# --------------------------------------------------------------------------
# Serialisation and digests
# --------------------------------------------------------------------------
def to_jsonable(obj, limit=400):
    """Human-readable JSON form of arrays / tuples / scalars (arrays truncated)."""
    import pandas as pd

    try:
        import xarray as xr
    except ImportError:  # pragma: no cover
        xr = None
    if obj is None or isinstance(obj, (bool, int, str)):
        return obj
    if isinstance(obj, float):
        return obj if np.isfinite(obj) else repr(obj)
    if isinstance(obj, (np.bool_,)):
        return bool(obj)
    if isinstance(obj, np.integer):
        return int(obj)
    if isinstance(obj, np.floating):
        return to_jsonable(float(obj))
    if isinstance(obj, np.ndarray):
        flat = obj.ravel()
        out = {
            "dtype": str(obj.dtype),
            "shape": list(obj.shape),
            "order": "F" if (obj.flags.f_contiguous and not obj.flags.c_contiguous) else "C",
            "writeable": bool(obj.flags.writeable),
        }
        if obj.dtype == object:
            out["values"] = [to_jsonable(v, limit) for v in flat[:limit]]
        else:
            out["values"] = [to_jsonable(v.item()) for v in flat[:limit]]
        if flat.size > limit:
            out["truncated_from"] = int(flat.size)
        return out
    if isinstance(obj, pd.Series):
        return {"series": to_jsonable(obj.values, limit), "index": to_jsonable(np.asarray(obj.index), limit)}
    if isinstance(obj, pd.DataFrame):
        return {"dataframe": {str(c): to_jsonable(obj[c].values, limit) for c in obj.columns}}
    if xr is not None and isinstance(obj, (xr.DataArray, xr.Dataset)):
        return {"xarray": str(obj)[:2000]}
    if isinstance(obj, dict):
        return {str(k): to_jsonable(v, limit) for k, v in obj.items()}
    if isinstance(obj, (list, tuple)):
        return [to_jsonable(v, limit) for v in obj]
    if isinstance(obj, (set, frozenset)):
        return sorted(to_jsonable(v, limit) for v in obj)
    return repr(obj)[:500]




def digest(obj, flags=True):
    """SHA-1 over the bytes, dtype, shape and (unless flags=False) write flag of every array reachable in obj."""
    sha = hashlib.sha1()
    _digest_into(sha, obj, 0, bool(flags))  # no module-level state: monitors digest concurrently in several threads
    return sha.hexdigest()


def _digest_into(sha, obj, depth, flags=True):
    import pandas as pd

    try:
        import xarray as xr
    except ImportError:  # pragma: no cover
        xr = None
    if depth > 6:
        return
    if isinstance(obj, np.ndarray):
        sha.update(str((obj.dtype.str, obj.shape, bool(obj.flags.writeable) if flags else None)).encode())
        if obj.dtype == object:
            for item in obj.ravel():
                _digest_into(sha, item, depth + 1, flags)
        else:
            sha.update(np.ascontiguousarray(obj).tobytes())
    elif isinstance(obj, pd.Series):
        sha.update(b"series")
        _digest_into(sha, np.asarray(obj.index), depth + 1, flags)
        _digest_into(sha, obj.to_numpy(), depth + 1, flags)
    elif isinstance(obj, pd.DataFrame):
        sha.update(b"frame")
        _digest_into(sha, np.asarray(obj.index), depth + 1, flags)
        for col in obj.columns:
            sha.update(str(col).encode())
            _digest_into(sha, obj[col].to_numpy(), depth + 1, flags)
    elif xr is not None and isinstance(obj, xr.DataArray):
        sha.update(b"dataarray" + str(obj.dims).encode() + str(obj.name).encode())
        _digest_into(sha, obj.values, depth + 1, flags)
        for name in obj.coords:
            sha.update(str(name).encode())
            _digest_into(sha, obj.coords[name].values, depth + 1, flags)
        sha.update(repr(sorted(obj.attrs.items(), key=str)).encode())
    elif xr is not None and isinstance(obj, xr.Dataset):
        sha.update(b"dataset")
        for name in obj.variables:
            sha.update(str(name).encode() + str(obj[name].dims).encode())
            _digest_into(sha, obj[name].values, depth + 1, flags)
        sha.update(repr(sorted(obj.attrs.items(), key=str)).encode())
    elif isinstance(obj, (list, tuple)):
        sha.update(("seq%d" % len(obj)).encode())
        for item in obj:
            _digest_into(sha, item, depth + 1, flags)
    elif isinstance(obj, dict):
        sha.update(b"dict")
        for key in sorted(obj, key=str):
            sha.update(str(key).encode())
            _digest_into(sha, obj[key], depth + 1, flags)
    elif isinstance(obj, (int, float, str, bool, type(None), np.generic)):
        sha.update(repr(obj).encode())
    elif hasattr(obj, "get_params") and not isinstance(obj, type):
        sha.update(type(obj).__name__.encode())
        try:
            _digest_into(sha, obj.get_params(deep=False), depth + 1, flags)
        except Exception:  # noqa: BLE001
            pass
    else:
        sha.update(type(obj).__name__.encode())


def signature(*parts):
    """Short hash used to count *distinct* cases."""
    sha = hashlib.sha1()
    for part in parts:
        _digest_into(sha, part, 0)
    return sha.hexdigest()[:16]


def case_rng(seed, prop_id, stream, index):
    """Independent, reproducible generator for one case."""
    key = [int(seed) & 0xFFFFFFFF, zlib.crc32(prop_id.encode()), zlib.crc32(stream.encode()), int(index)]
    return np.random.default_rng(np.random.SeedSequence(key))


# --------------------------------------------------------------------------
# Run state
# --------------------------------------------------------------------------
class Run:
    """Everything one check execution observes; mergeable across shards."""

    def __init__(self, prop_id, tier, seed, level="exploration"):
        self.prop_id = prop_id
        self.tier = tier
        self.seed = int(seed)
        self.level = level
        self.counters = collections.Counter()
        self.maxima = {}
        self.sets = collections.defaultdict(set)
        self.nontrivial = set()
        self.samples = []
        self.sample_keys = set()
        self.violations = []
        self._vio_keys = set()
        self.notes = []
        self.inconclusive = []
        self.case = None  # (stream, index)
        self.audit = {}
        self.rule = ""
        self.assumptions = []
        self.exhaustive = {}
        self.t0 = time.time()
        self._lock = threading.RLock()  # monitors may run in several threads at once (concurrent workloads)

    # -- observation API used by monitors and workloads ---------------------
    def count(self, name, n=1):
        with self._lock:
            self.counters[name] += n

    def evaluated(self, monitor, n=1):
        """A monitor decided something (counted per monitor and in total)."""
        with self._lock:
            self.counters["eval:" + monitor] += n
            self.counters["evaluations"] += n

    def observe_max(self, name, value):
        value = float(value)
        if not np.isfinite(value):
            return
        with self._lock:
            if name not in self.maxima or value > self.maxima[name]:
                self.maxima[name] = value

    def seen(self, setname, item):
        self.sets[setname].add(item if isinstance(item, str) else json.dumps(to_jsonable(item), sort_keys=True))

    def mark_nontrivial(self, *parts):
        self.nontrivial.add(signature(*parts))

    def sample(self, key, obj):
        """Keep one written-out case per key (first few keys only)."""
        if key in self.sample_keys or len(self.samples) >= MAX_SAMPLES:
            return
        self.sample_keys.add(key)
        self.samples.append({"kind": key, "case": list(self.case) if self.case else None, "detail": to_jsonable(obj, 60)})

    def violation(self, monitor, message, witness=None, key=None):
        """Record a refutation. Never raises: the workload keeps going."""
        with self._lock:
            self.counters["violations:" + monitor] += 1
        entry = {
            "monitor": monitor,
            "message": str(message)[:1000],
            "case": list(self.case) if self.case else None,
            "key": key,
            "witness": to_jsonable(witness if witness is not None else {}, 200),
        }
        dedupe = (monitor, key)
        with self._lock:
            if len(self.violations) < 400 or (dedupe not in self._vio_keys and len(self.violations) < 2000):
                self.violations.append(entry)
            self._vio_keys.add(dedupe)

    def note_inconclusive(self, reason):
        self.inconclusive.append(str(reason))

    # -- shards -------------------------------------------------------------
    def dump(self):
        return {
            "counters": dict(self.counters),
            "maxima": self.maxima,
            "sets": {k: sorted(v) for k, v in self.sets.items()},
            "nontrivial": sorted(self.nontrivial),
            "samples": self.samples,
            "violations": self.violations,
            "inconclusive": self.inconclusive,
            "audit": self.audit,
            "exhaustive": self.exhaustive,
            "notes": self.notes,
        }

    def merge(self, part):
        self.counters.update(part["counters"])
        for key, val in part["maxima"].items():
            self.observe_max(key, val)
        for key, val in part["sets"].items():
            self.sets[key].update(val)
        self.nontrivial.update(part["nontrivial"])
        for smp in part["samples"]:
            if smp["kind"] not in self.sample_keys and len(self.samples) < MAX_SAMPLES:
                self.sample_keys.add(smp["kind"])
                self.samples.append(smp)
        self.violations.extend(part["violations"])
        self.inconclusive.extend(part["inconclusive"])
        for name, row in part["audit"].items():
            mine = self.audit.setdefault(name, {"wrapper_calls": 0, "code_starts": 0})
            mine["wrapper_calls"] += row["wrapper_calls"]
            mine["code_starts"] += row["code_starts"]
        for key, val in part.get("exhaustive", {}).items():
            prev = self.exhaustive.get(key)
            if prev is None:
                self.exhaustive[key] = val
            else:
                self.exhaustive[key] = {"size": prev["size"], "done": prev["done"] + val["done"]}
        self.notes.extend(part.get("notes", []))


# --------------------------------------------------------------------------
# Known findings
# --------------------------------------------------------------------------
class yield_injection:
    """
    Context manager: while active, every statement-start line executed in the verde sources under test gives up the GIL with
    probability `probability` (time.sleep(0) from a sys.monitoring LINE callback), so that concurrently running threads are
    interleaved between *any* two lines of the library, not only where the interpreter's switch interval happens to fall.
    Only code the program can really be pre-empted in is affected (pure-Python lines; nothing is injected inside C calls).
    """

    TOOL = 5

    def __init__(self, probability=0.25, seed=0):
        self.probability = probability
        self.seed = seed
        self.fired = 0
        self.active = False

    def __enter__(self):
        import random

        mon = getattr(sys, "monitoring", None)
        if mon is None or self.probability <= 0:
            return self
        import verde

        root = os.path.dirname(os.path.abspath(verde.__file__)) + os.sep
        rnd = random.Random(self.seed)

        def on_line(code, line):  # noqa: U100
            if not code.co_filename.startswith(root) or (os.sep + "tests" + os.sep) in code.co_filename:
                return mon.DISABLE
            if rnd.random() < self.probability:
                self.fired += 1
                time.sleep(0)
            return None

        try:
            mon.use_tool_id(self.TOOL, "verde-verif-yield")
        except ValueError:
            return self
        mon.register_callback(self.TOOL, mon.events.LINE, on_line)
        mon.set_events(self.TOOL, mon.events.LINE)
        self.active = True
        return self

    def __exit__(self, *exc):
        if self.active:
            mon = sys.monitoring
            mon.set_events(self.TOOL, 0)
            mon.register_callback(self.TOOL, mon.events.LINE, None)
            mon.free_tool_id(self.TOOL)
            mon.restart_events()
            self.active = False
        return False


def run_threads(callables, switch_interval=1e-5, timeout=600, rounds=1, yield_probability=0.0, seed=0):
    """
    Run the callables concurrently, one thread each, released together by a barrier, with a very short interpreter switch
    interval so that the threads interleave between (not only inside) numpy calls. Returns [(result, exception)] in the order of
    the callables; a thread that does not finish within `timeout` seconds yields (None, TimeoutError) - inconclusive, the
    caller decides. The monitors installed through the tap judge every call made in every thread (the tap keeps one call stack
    per thread and the Run's counters are locked). With yield_probability > 0 the threads additionally give up the GIL at random
    statement starts inside the verde sources (see yield_injection); `run_threads.yields_injected` accumulates how often.
    """
    out = [(None, None)] * len(callables)
    barrier = threading.Barrier(len(callables))

    def work(k, fn):
        try:
            barrier.wait(timeout=60)
            res = None
            for _ in range(rounds):
                res = fn()
            out[k] = (res, None)
        except BaseException as exc:  # noqa: BLE001
            out[k] = (None, exc)

    old = sys.getswitchinterval()
    sys.setswitchinterval(switch_interval)
    try:
        with yield_injection(yield_probability, seed) as inj:
            threads = [threading.Thread(target=work, args=(k, fn), daemon=True) for k, fn in enumerate(callables)]
            for th in threads:
                th.start()
            deadline = time.time() + timeout
            for k, th in enumerate(threads):
                th.join(max(0.0, deadline - time.time()))
                if th.is_alive():
                    out[k] = (None, TimeoutError("thread %d still running after %ss" % (k, timeout)))
        run_threads.yields_injected = getattr(run_threads, "yields_injected", 0) + inj.fired
    finally:
        sys.setswitchinterval(old)
    return out


def load_known_findings(prop_id):
    path = os.path.join(VERIF, "known_findings.json")
    if not os.path.exists(path):
        return []
    with open(path) as fobj:
        data = json.load(fobj)
    return [e for e in data.get("findings", []) if e.get("property") == prop_id and e.get("status") == "known"]


# --------------------------------------------------------------------------
# Driver
# --------------------------------------------------------------------------
def load_property(prop_id):
    return importlib.import_module("vmon.props." + prop_id.lower())


def iter_cases(mod, tier):
    plan = mod.plan(tier)
    counter = 0
    for stream, count in plan.items():
        for index in range(count):
            yield counter, stream, index
            counter += 1


class _Watchdog(Exception):
    pass


def _alarm(signum, frame):  # noqa: U100
    raise _Watchdog()


def _limit_memory():
    """A changed tree may try to allocate absurd grids: make that a MemoryError (a recorded violation) instead of an OOM kill."""
    try:
        import resource

        limit = int(float(os.environ.get("VERIF_MEMORY_GIB", "12")) * 2 ** 30)
        soft, hard = resource.getrlimit(resource.RLIMIT_AS)
        if hard == resource.RLIM_INFINITY or limit < hard:
            if soft == resource.RLIM_INFINITY or soft > limit:
                resource.setrlimit(resource.RLIMIT_AS, (limit, hard))
    except Exception:  # noqa: BLE001
        pass


def execute(prop_id, tier, seed, shard=None, only_case=None):
    """Run (a shard of) a property's workload under its monitors. Returns the Run."""
    from . import tap as tapmod

    boot.ensure_deps()
    boot.import_verde()
    _limit_memory()
    mod = load_property(prop_id)
    run = Run(prop_id, tier, seed, level=getattr(mod, "LEVEL", "exploration"))
    tap = tapmod.Tap(run)
    mod.install(tap, run)
    case_budget = getattr(mod, "CASE_TIMEOUT_S", 120)
    try:
        for counter, stream, index in iter_cases(mod, tier):
            if only_case is not None and (stream, index) != tuple(only_case):
                continue
            if shard is not None and counter % shard[1] != shard[0]:
                continue
            rng = case_rng(seed, prop_id, stream, index)
            run.case = (stream, index)
            run.count("cases")
            run.count("cases:" + stream)
            tap.begin_case()
            old = signal.signal(signal.SIGALRM, _alarm)
            signal.alarm(case_budget)
            try:
                mod.run_case(run, tap, stream, index, rng)
            except _Watchdog:
                run.note_inconclusive("watchdog: case %s/%d exceeded %ds" % (stream, index, case_budget))
            except Exception as exc:  # noqa: BLE001
                handler = getattr(mod, "on_exception", None)
                handled = handler(run, stream, index, exc) if handler else False
                if not handled:
                    run.violation(
                        "unexpected_exception",
                        "%s: %s" % (type(exc).__name__, exc),
                        {"traceback": traceback.format_exc()[-3000:]},
                        key="exception:" + type(exc).__name__,
                    )
            finally:
                signal.alarm(0)
                signal.signal(signal.SIGALRM, old)
                tap.end_case()
            run.case = None
        if hasattr(mod, "finish"):
            mod.finish(run, tap, shard)
    finally:
        run.audit = tap.audit()
        tap.uninstall()
    return run


def conclude(run, mod, replay_mode=False):
    """Decide the verdict, write evidence and replays, print the interface lines."""
    prop_id = run.prop_id
    # floors -> inconclusive
    floors = getattr(mod, "FLOORS", {}).get(run.tier, {}) if not replay_mode else {}
    for name, minimum in floors.items():
        have = len(run.nontrivial) if name == "distinct_nontrivial" else run.counters.get(name, 0)
        if have < minimum:
            run.note_inconclusive("floor: %s=%d < %d (monitor not reached often enough)" % (name, have, minimum))
    for name, row in run.audit.items():
        if row["code_starts"] > row["wrapper_calls"]:
            run.note_inconclusive(
                "bypass audit: %s ran %d times but its monitor saw %d calls"
                % (name, row["code_starts"], row["wrapper_calls"])
            )
    # classify violations
    known = load_known_findings(prop_id)
    classifiers = getattr(mod, "CLASSIFIERS", {})
    fresh, known_hits = [], collections.OrderedDict()
    for vio in run.violations:
        matched = None
        for entry in known:
            fn = classifiers.get(entry.get("classifier"))
            try:
                if fn is not None and fn(vio):
                    matched = entry
                    break
            except Exception:  # noqa: BLE001
                continue
        if matched is None:
            fresh.append(vio)
        else:
            known_hits.setdefault(matched["key"], [matched, 0])[1] += 1
    # replays
    lines = []
    replay_dir = os.path.join(os.environ.get("VERIF_REPLAY_DIR") or os.path.join(VERIF, "replays"), prop_id)
    seen_keys = set()
    for vio in fresh:
        dedupe = (vio["monitor"], vio.get("key"))
        if dedupe in seen_keys or len(seen_keys) >= MAX_REPLAYS:
            continue
        seen_keys.add(dedupe)
        os.makedirs(replay_dir, exist_ok=True)
        case = vio.get("case") or ["none", 0]
        fname = "%s-%s-%s-s%d.json" % (case[0], case[1], vio["monitor"].replace("/", "_")[:40], run.seed)
        path = os.path.join(replay_dir, fname)
        with open(path, "w") as fobj:
            json.dump(
                {"property": prop_id, "tier": run.tier, "seed": run.seed, "stream": case[0], "index": case[1], "violation": vio},
                fobj, indent=1,
            )
        lines.append("VIOLATION property=%s replay=%s" % (prop_id, os.path.relpath(path, VERIF)))
        lines.append("  monitor=%s case=%s: %s" % (vio["monitor"], case, vio["message"][:300]))
    for key, (entry, hits) in known_hits.items():
        lines.append("KNOWN-FINDING: property=%s %s (%s; %d observations this run)" % (prop_id, entry.get("what", key), key, hits))
    # verdict
    if fresh:
        verdict, code = "violated", EXIT_VIOLATED
    elif run.inconclusive:
        verdict, code = "inconclusive", EXIT_INCONCLUSIVE
        for reason in sorted(set(run.inconclusive))[:10]:
            lines.append("INCONCLUSIVE property=%s reason=%s" % (prop_id, reason))
    else:
        verdict, code = "held", EXIT_HELD
    if not replay_mode and not os.environ.get("VERIF_NO_EVIDENCE"):
        write_evidence(run, mod, verdict, len(fresh), known_hits)
    evals = int(run.counters.get("evaluations", 0))
    lines.append(
        "%s property=%s tier=%s seed=%d cases=%d evaluations=%d distinct_nontrivial=%d wall=%.1fs"
        % (verdict.upper(), prop_id, run.tier, run.seed, run.counters.get("cases", 0), evals, len(run.nontrivial), time.time() - run.t0)
    )
    print("\n".join(lines))
    sys.stdout.flush()
    return code


def write_evidence(run, mod, verdict, n_fresh, known_hits):
    monitors = {k[5:]: v for k, v in run.counters.items() if k.startswith("eval:")}
    other = {k: v for k, v in run.counters.items() if not k.startswith("eval:") and k != "evaluations"}
    coverage = {
        "evaluations": int(run.counters.get("evaluations", 0)),
        "distinct_nontrivial": len(run.nontrivial),
        "rule": getattr(mod, "RULE", run.rule),
        "samples": run.samples,
        "verdict": verdict,
        "monitor_evaluations": monitors,
        "counters": other,
        "largest_observed": run.maxima,
        "distinct_observed": {k: len(v) for k, v in run.sets.items()},
        "observed_values": {k: sorted(v)[:40] for k, v in run.sets.items() if len(v) <= 200},
        "bypass_audit": run.audit,
        "known_findings_observed": {k: hits for k, (_, hits) in known_hits.items()},
        "inconclusive_reasons": sorted(set(run.inconclusive))[:10],
        "notes": run.notes[:20],
    }
    if run.exhaustive:
        coverage["lattices"] = run.exhaustive
        coverage["exhaustive"] = all(v["done"] >= v["size"] for v in run.exhaustive.values())
    evidence = {
        "property_id": run.prop_id,
        "tier": run.tier,
        "seed": run.seed,
        "level": run.level,
        "coverage": coverage,
        "assumptions": getattr(mod, "ASSUMPTIONS", []),
        "wall_s": round(time.time() - run.t0, 2),
        "violations": int(n_fresh),
    }
    os.makedirs(os.path.join(VERIF, "evidence"), exist_ok=True)
    path = os.path.join(VERIF, "evidence", run.prop_id + ".json")
    tmp = path + ".tmp"
    with open(tmp, "w") as fobj:
        json.dump(evidence, fobj, indent=1, sort_keys=True)
    os.replace(tmp, path)


ALL_TEST_FILES = [
    "test_base.py", "test_blockreduce.py", "test_chain.py", "test_coordinates.py", "test_distances.py", "test_io.py", "test_mask.py",
    "test_minimal.py", "test_model_selection.py", "test_neighbors.py", "test_projections.py", "test_scipy.py", "test_spline.py",
    "test_synthetic.py", "test_trend.py", "test_utils.py", "test_vector.py",
]


def ambient_tests(run, filename):
    """
    Ambient executions: run one of the repository's own test modules in-process while the property's monitors are installed.
    The tests' own pass/fail is not the verdict (it is recorded); what counts is what the monitors observe on the calls they make.
    """
    import contextlib
    import io

    import pytest
    import verde

    path = os.path.join(os.path.dirname(os.path.abspath(verde.__file__)), "tests", filename)
    sink = io.StringIO()
    before = run.counters.get("evaluations", 0)
    with contextlib.redirect_stdout(sink), contextlib.redirect_stderr(sink):
        code = pytest.main(["-q", "--no-header", "-p", "no:cacheprovider", "-p", "no:xdist", "-p", "no:timeout",
                            "-k", "not fetch and not datasets_locate", path])
    run.count("ambient:%s:pytest_exit_%s" % (filename, int(code)))
    run.count("ambient_evaluations", run.counters.get("evaluations", 0) - before)
    tail = [ln for ln in sink.getvalue().strip().splitlines() if ln.strip()][-1:]
    if len(run.notes) < 40:
        run.notes.append("ambient %s: %s" % (filename, tail[0] if tail else ""))


def run_sharded(prop_id, tier, seed, nshards, timeout_s):
    """Fan a tier out over worker processes (subprocess.run, never a Pool)."""
    import concurrent.futures as cf

    work = os.path.join(VERIF, ".work", "%s-%d" % (prop_id, os.getpid()))
    os.makedirs(work, exist_ok=True)
    mod_run = Run(prop_id, tier, seed)

    def one(k):
        out = os.path.join(work, "shard-%d.json" % k)
        if os.path.exists(out):
            os.remove(out)
        cmd = [sys.executable, os.path.join(VERIF, "vcheck"), prop_id, "--tier", tier, "--seed", str(seed),
               "--shard", "%d/%d" % (k, nshards), "--partial", out]
        try:
            proc = subprocess.run(cmd, capture_output=True, text=True, timeout=timeout_s)
        except subprocess.TimeoutExpired:
            return k, None, "shard %d hit the %ds wall-clock watchdog" % (k, timeout_s)
        if not os.path.exists(out):
            return k, None, "shard %d died: rc=%s %s" % (k, proc.returncode, (proc.stderr or "")[-800:])
        with open(out) as fobj:
            return k, json.load(fobj), None

    with cf.ThreadPoolExecutor(max_workers=nshards) as pool:
        for k, part, err in pool.map(one, range(nshards)):
            if err:
                mod_run.note_inconclusive(err)
            else:
                mod_run.merge(part)
    try:
        for name in os.listdir(work):
            os.remove(os.path.join(work, name))
        os.rmdir(work)
    except OSError:
        pass
    return mod_run


def main(argv=None):
    import argparse

    parser = argparse.ArgumentParser(prog="vcheck")
    parser.add_argument("property")
    parser.add_argument("--tier", default=os.environ.get("VERIF_TIER", "quick"), choices=["quick", "thorough"])
    parser.add_argument("--seed", type=int, default=int(os.environ.get("VERIF_SEED", "0") or 0))
    parser.add_argument("--shard", default=None)
    parser.add_argument("--partial", default=None)
    parser.add_argument("--replay", default=None)
    parser.add_argument("--jobs", type=int, default=int(os.environ.get("VERIF_JOBS", "0") or 0))
    args = parser.parse_args(argv)
    prop_id = args.property.upper()
    boot.ensure_deps()
    boot.import_verde()
    mod = load_property(prop_id)
    if args.replay:
        path = args.replay if os.path.isabs(args.replay) else os.path.join(VERIF, args.replay)
        with open(path) as fobj:
            rep = json.load(fobj)
        run = execute(prop_id, rep["tier"], rep["seed"], only_case=(rep["stream"], rep["index"]))
        return conclude(run, mod, replay_mode=True)
    if args.shard:
        k, n = (int(v) for v in args.shard.split("/"))
        run = execute(prop_id, args.tier, args.seed, shard=(k, n))
        with open(args.partial, "w") as fobj:
            json.dump(run.dump(), fobj)
        return 0
    jobs = args.jobs or getattr(mod, "JOBS", {}).get(args.tier, 1)
    if jobs > 1:
        t0 = time.time()
        run = run_sharded(prop_id, args.tier, args.seed, jobs, getattr(mod, "SHARD_TIMEOUT_S", 3000))
        run.t0 = t0
        run.level = getattr(mod, "LEVEL", "exploration")
    else:
        run = execute(prop_id, args.tier, args.seed)
    return conclude(run, mod)
